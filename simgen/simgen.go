// Package simgen rewrites arc packages from /repo's current working tree so
// that every source of nondeterminism goes through internal/simrt, and emits
// a `go build -overlay` file. Nothing is written into /repo.
package simgen

import (
	"bytes"
	"encoding/json"
	"fmt"
	"go/ast"
	"go/format"
	"go/token"
	"go/types"
	"os"
	"path/filepath"
	"sort"
	"strconv"
	"strings"

	"golang.org/x/tools/go/ast/astutil"
	"golang.org/x/tools/go/packages"
)

const ArcMod = "github.com/basekick-labs/arc"
const SimrtPath = ArcMod + "/internal/simrt"

// Hook asks for `if h := simrt.Hook_<Name>; h != nil { return h(args...) }`
// to be prepended to a function (F-seam).
type Hook struct {
	Pkg  string `json:"pkg"`  // import path suffix below ArcMod, e.g. internal/compaction
	Func string `json:"func"` // Func or Recv.Method
	Var  string `json:"var"`  // name of the hook variable emitted into the package (zz file)
}

// ConstOverride replaces the value of a package-level const/var initialiser.
type ConstOverride struct {
	Pkg   string `json:"pkg"`
	Name  string `json:"name"`
	Value string `json:"value"`
}

// PkgRule selects which rewrite rules run on a package.
type PkgRule struct {
	Pkg   string   `json:"pkg"`             // path below ArcMod
	Rules []string `json:"rules"`           // time sync go chan select range fs rand io
	Files []string `json:"files,omitempty"` // restrict to these base names (default all)
	Skip  []string `json:"skip,omitempty"`  // base names to leave untouched
}

// AddDir copies every *.go file of a /verif directory into the overlay as a
// (possibly new) package directory of /repo.
type AddDir struct {
	Src string `json:"src"` // relative to /verif
	Dst string `json:"dst"` // relative to /repo
}

// Profile describes one area binary.
type Profile struct {
	Area      string          `json:"area"`
	Packages  []PkgRule       `json:"packages"`
	Hooks     []Hook          `json:"hooks,omitempty"`
	Consts    []ConstOverride `json:"consts,omitempty"`
	Add       []AddDir        `json:"add,omitempty"`
	MainSlice bool            `json:"main_slice,omitempty"`
	Target    string          `json:"target"` // package to build, relative to /repo
	Tags      string          `json:"tags,omitempty"`
	// ExtraRequire is appended to the scratch copy of go.mod (never /repo's),
	// e.g. "github.com/anishathalye/porcupine v1.3.0" for a harness-only dependency.
	ExtraRequire string `json:"extra_require,omitempty"`
}

type Result struct {
	OverlayPath string
	Stats       map[string]int
	Warnings    []string
}

type gen struct {
	repo, verif, out string
	overlay          map[string]string
	stats            map[string]int
	warns            []string
	nfile            int
}

func has(rules []string, r string) bool {
	for _, x := range rules {
		if x == r || x == "all" {
			return true
		}
	}
	return false
}

// Generate instruments the profile's packages from repo into outDir and
// writes outDir/overlay.json.
func Generate(repo, verif, outDir string, p *Profile) (*Result, error) {
	g := &gen{repo: repo, verif: verif, out: outDir, overlay: map[string]string{}, stats: map[string]int{}}
	if err := os.MkdirAll(outDir, 0o755); err != nil {
		return nil, err
	}
	// 1. simrt itself.
	if err := g.addDir(filepath.Join(verif, "simrt"), "internal/simrt", true); err != nil {
		return nil, err
	}
	for _, a := range p.Add {
		if err := g.addDir(filepath.Join(verif, a.Src), a.Dst, false); err != nil {
			return nil, err
		}
	}
	// 2. load and rewrite.
	var patterns []string
	for _, pr := range p.Packages {
		patterns = append(patterns, ArcMod+"/"+pr.Pkg)
	}
	if len(patterns) > 0 {
		cfg := &packages.Config{
			Mode: packages.NeedName | packages.NeedFiles | packages.NeedCompiledGoFiles | packages.NeedSyntax |
				packages.NeedTypes | packages.NeedTypesInfo | packages.NeedImports | packages.NeedDeps,
			Dir: repo,
			Env: append(os.Environ(), "GOFLAGS=-mod=mod", "GOPROXY=off", "GOSUMDB=off", "GOTOOLCHAIN=local"),
		}
		if p.Tags != "" {
			cfg.BuildFlags = []string{"-tags", p.Tags}
		}
		pkgs, err := packages.Load(cfg, patterns...)
		if err != nil {
			return nil, fmt.Errorf("load: %w", err)
		}
		byPath := map[string]*packages.Package{}
		for _, pk := range pkgs {
			byPath[pk.PkgPath] = pk
			for _, e := range pk.Errors {
				return nil, fmt.Errorf("package %s: %v", pk.PkgPath, e)
			}
		}
		for _, pr := range p.Packages {
			pk := byPath[ArcMod+"/"+pr.Pkg]
			if pk == nil {
				return nil, fmt.Errorf("package %s not loaded", pr.Pkg)
			}
			if err := g.rewritePkg(pk, pr, p); err != nil {
				return nil, err
			}
		}
	}
	// 3. overlay file.
	ov := struct{ Replace map[string]string }{g.overlay}
	b, _ := json.MarshalIndent(ov, "", " ")
	op := filepath.Join(outDir, "overlay.json")
	if err := os.WriteFile(op, b, 0o644); err != nil {
		return nil, err
	}
	return &Result{OverlayPath: op, Stats: g.stats, Warnings: g.warns}, nil
}

func (g *gen) addDir(src, dstRel string, skipTests bool) error {
	ents, err := os.ReadDir(src)
	if err != nil {
		return err
	}
	for _, e := range ents {
		n := e.Name()
		if e.IsDir() || !strings.HasSuffix(n, ".go") {
			continue
		}
		if skipTests && strings.HasSuffix(n, "_test.go") {
			continue
		}
		abs, _ := filepath.Abs(filepath.Join(src, n))
		g.overlay[filepath.Join(g.repo, dstRel, n)] = abs
	}
	return nil
}

func (g *gen) emit(origPath string, fset *token.FileSet, f *ast.File) error {
	// Comments are dropped from rewritten files (the printer places them by
	// position and inserted nodes have none); build constraints and other
	// directives before the package clause are kept.
	var keep []*ast.CommentGroup
	for _, cg := range f.Comments {
		if cg.End() < f.Package {
			keep = append(keep, cg)
		}
	}
	f.Comments = keep
	f.Doc = nil
	for _, imp := range f.Imports {
		if imp.Path.Value == `"C"` {
			return fmt.Errorf("%s: cgo file needs rewriting; not supported", origPath)
		}
	}
	var buf bytes.Buffer
	if err := format.Node(&buf, fset, f); err != nil {
		return fmt.Errorf("format %s: %w", origPath, err)
	}
	g.nfile++
	rel, _ := filepath.Rel(g.repo, origPath)
	name := filepath.Join(g.out, "src", rel)
	if err := os.MkdirAll(filepath.Dir(name), 0o755); err != nil {
		return err
	}
	if err := os.WriteFile(name, buf.Bytes(), 0o644); err != nil {
		return err
	}
	g.overlay[origPath] = name
	return nil
}

func (g *gen) emitNew(dstRel string, content string) error {
	name := filepath.Join(g.out, "src", dstRel)
	if err := os.MkdirAll(filepath.Dir(name), 0o755); err != nil {
		return err
	}
	if err := os.WriteFile(name, []byte(content), 0o644); err != nil {
		return err
	}
	g.overlay[filepath.Join(g.repo, dstRel)] = name
	return nil
}

// selector replacement tables: import path -> name -> simrt name
var selTime = map[string]string{
	"Now": "Now", "Since": "Since", "Until": "Until", "Sleep": "Sleep", "After": "After", "AfterFunc": "AfterFunc",
	"NewTimer": "NewTimer", "NewTicker": "NewTicker", "Tick": "Tick", "Timer": "Timer", "Ticker": "Ticker",
}
var selCtx = map[string]string{
	"WithTimeout": "WithTimeout", "WithDeadline": "WithDeadline", "WithTimeoutCause": "WithTimeoutCause", "WithDeadlineCause": "WithDeadlineCause",
}
var selSync = map[string]string{
	"Mutex": "Mutex", "RWMutex": "RWMutex", "WaitGroup": "WaitGroup", "Once": "Once", "Cond": "Cond", "NewCond": "NewCond",
}
var selOS = map[string]string{
	"OpenFile": "OpenFile", "Open": "Open", "Create": "Create", "CreateTemp": "CreateTemp", "Rename": "Rename", "Remove": "Remove",
	"RemoveAll": "RemoveAll", "MkdirAll": "MkdirAll", "Mkdir": "Mkdir", "Stat": "Stat", "Lstat": "Lstat", "ReadFile": "ReadFile",
	"WriteFile": "WriteFile", "ReadDir": "ReadDir", "Chmod": "Chmod", "Chtimes": "Chtimes", "Truncate": "Truncate", "File": "File",
}
var selFilepath = map[string]string{"Glob": "Glob", "WalkDir": "WalkDir", "Walk": "Walk"}
var selIO = map[string]string{"Pipe": "Pipe", "PipeReader": "PipeReader", "PipeWriter": "PipeWriter"}
var selSem = map[string]string{"NewWeighted": "NewWeighted", "Weighted": "Weighted"}
var selCryptoRand = map[string]string{"Read": "RandRead", "Reader": "RandReader"}
var selUUID = map[string]string{"NewString": "UUIDString", "New": "UUIDNew"}

func selTables(rules []string) map[string]map[string]string {
	t := map[string]map[string]string{}
	if has(rules, "time") {
		t["time"] = selTime
		t["context"] = selCtx
	}
	if has(rules, "sync") {
		t["sync"] = selSync
	}
	if has(rules, "pool") {
		// sync.Pool only (with or without "sync"): its hit/miss behaviour
		// depends on the P a goroutine happens to run on and on GC timing
		m := map[string]string{"Pool": "Pool"}
		for k, v := range t["sync"] {
			m[k] = v
		}
		t["sync"] = m
	}
	if has(rules, "fs") {
		t["os"] = selOS
		t["path/filepath"] = selFilepath
	}
	if has(rules, "io") {
		t["io"] = selIO
		t["golang.org/x/sync/semaphore"] = selSem
	}
	if has(rules, "rand") {
		t["crypto/rand"] = selCryptoRand
		t["github.com/google/uuid"] = selUUID
	}
	return t
}

func (g *gen) rewritePkg(pk *packages.Package, pr PkgRule, prof *Profile) error {
	tables := selTables(pr.Rules)
	only := map[string]bool{}
	for _, f := range pr.Files {
		only[f] = true
	}
	skip := map[string]bool{}
	for _, f := range pr.Skip {
		skip[f] = true
	}
	var hookDecls []string
	hookImports := map[string]string{}
	for i, f := range pk.Syntax {
		path := pk.CompiledGoFiles[i]
		base := filepath.Base(path)
		if !strings.HasPrefix(path, g.repo) || strings.HasSuffix(base, "_test.go") {
			continue
		}
		if (len(only) > 0 && !only[base]) || skip[base] {
			// hooks and const overrides still apply
		}
		fr := &fileRewriter{g: g, pk: pk, f: f, fset: pk.Fset, info: pk.TypesInfo, rules: pr.Rules, tables: tables, base: base}
		restricted := (len(only) > 0 && !only[base]) || skip[base]
		if !restricted {
			fr.run()
		}
		// hooks
		for _, h := range prof.Hooks {
			if ArcMod+"/"+h.Pkg != pk.PkgPath {
				continue
			}
			if decl, ok := fr.applyHook(h, hookImports); ok {
				hookDecls = append(hookDecls, decl)
			}
		}
		for _, c := range prof.Consts {
			if ArcMod+"/"+c.Pkg == pk.PkgPath {
				fr.applyConst(c)
			}
		}
		if base == "main.go" && prof.MainSlice && pk.Name == "main" {
			if err := fr.mainSlice(); err != nil {
				return err
			}
		}
		if fr.changed {
			fr.fixImports()
			if err := g.emit(path, pk.Fset, f); err != nil {
				return err
			}
		}
	}
	for _, h := range prof.Hooks {
		if ArcMod+"/"+h.Pkg == pk.PkgPath {
			found := false
			for _, d := range hookDecls {
				if strings.Contains(d, " "+h.Var+" ") {
					found = true
				}
			}
			if !found {
				return fmt.Errorf("hook target %s.%s not found", h.Pkg, h.Func)
			}
		}
	}
	if len(hookDecls) > 0 {
		var b strings.Builder
		fmt.Fprintf(&b, "package %s\n\n", pk.Name)
		var imps []string
		for p, n := range hookImports {
			imps = append(imps, fmt.Sprintf("%s %q", n, p))
		}
		sort.Strings(imps)
		if len(imps) > 0 {
			b.WriteString("import (\n")
			for _, i := range imps {
				b.WriteString("\t" + i + "\n")
			}
			b.WriteString(")\n\n")
		}
		for _, d := range hookDecls {
			b.WriteString(d + "\n")
		}
		rel := strings.TrimPrefix(pk.PkgPath, ArcMod+"/")
		if err := g.emitNew(filepath.Join(rel, "zz_verif_hooks.go"), b.String()); err != nil {
			return err
		}
	}
	return nil
}

type fileRewriter struct {
	g       *gen
	pk      *packages.Package
	f       *ast.File
	fset    *token.FileSet
	info    *types.Info
	rules   []string
	tables  map[string]map[string]string
	base    string
	changed bool
	needSim bool
	tmpN    int
}

func (fr *fileRewriter) stat(k string) { fr.g.stats[k]++ }

func simSel(name string) *ast.SelectorExpr {
	return &ast.SelectorExpr{X: ast.NewIdent("simrt"), Sel: ast.NewIdent(name)}
}

func call(fn ast.Expr, args ...ast.Expr) *ast.CallExpr { return &ast.CallExpr{Fun: fn, Args: args} }

func (fr *fileRewriter) pkgOf(id *ast.Ident) string {
	if obj, ok := fr.info.Uses[id].(*types.PkgName); ok {
		return obj.Imported().Path()
	}
	return ""
}

func (fr *fileRewriter) isChan(e ast.Expr) bool {
	t := fr.info.TypeOf(e)
	if t == nil {
		return false
	}
	_, ok := t.Underlying().(*types.Chan)
	return ok
}

func (fr *fileRewriter) isMap(e ast.Expr) bool {
	t := fr.info.TypeOf(e)
	if t == nil {
		return false
	}
	_, ok := t.Underlying().(*types.Map)
	return ok
}

func (fr *fileRewriter) tmp(prefix string) string {
	fr.tmpN++
	return fmt.Sprintf("_sim%s%d", prefix, fr.tmpN)
}

func (fr *fileRewriter) pos(n ast.Node) string {
	p := fr.fset.Position(n.Pos())
	return fr.base + ":" + strconv.Itoa(p.Line)
}

func unparen(e ast.Expr) ast.Expr {
	for {
		p, ok := e.(*ast.ParenExpr)
		if !ok {
			return e
		}
		e = p.X
	}
}

func isRecv(e ast.Expr) (*ast.UnaryExpr, bool) {
	u, ok := unparen(e).(*ast.UnaryExpr)
	if ok && u.Op == token.ARROW {
		return u, true
	}
	return nil, false
}

func (fr *fileRewriter) run() {
	defer fr.fnYield()
	doChan := has(fr.rules, "chan")
	doSel := has(fr.rules, "select")
	doGo := has(fr.rules, "go")
	doRange := has(fr.rules, "range")

	// Pass 1 (post-order): selects first need their comm clauses intact, so
	// handle SelectStmt in pre-order and skip rewriting recv/send inside the
	// comm statements themselves.
	commStmts := map[ast.Stmt]bool{}
	ast.Inspect(fr.f, func(n ast.Node) bool {
		if s, ok := n.(*ast.SelectStmt); ok {
			for _, c := range s.Body.List {
				cc := c.(*ast.CommClause)
				if cc.Comm != nil {
					commStmts[cc.Comm] = true
				}
			}
		}
		return true
	})

	astutil.Apply(fr.f, nil, func(c *astutil.Cursor) bool {
		switch n := c.Node().(type) {
		case *ast.SelectorExpr:
			if id, ok := n.X.(*ast.Ident); ok {
				if p := fr.pkgOf(id); p != "" {
					if tbl := fr.tables[p]; tbl != nil {
						if to, ok := tbl[n.Sel.Name]; ok {
							c.Replace(simSel(to))
							fr.changed, fr.needSim = true, true
							fr.stat("sel." + p + "." + n.Sel.Name)
						}
					}
				}
			}
		case *ast.UnaryExpr:
			if doChan && n.Op == token.ARROW {
				// skip when it is the direct comm of a select (handled there)
				if fr.inComm(c, commStmts) {
					return true
				}
				// v, ok := <-ch handled at the assignment
				if as, ok := c.Parent().(*ast.AssignStmt); ok && len(as.Lhs) == 2 && len(as.Rhs) == 1 {
					c.Replace(call(simSel("Recv2"), n.X))
				} else if vs, ok := c.Parent().(*ast.ValueSpec); ok && len(vs.Names) == 2 && len(vs.Values) == 1 {
					c.Replace(call(simSel("Recv2"), n.X))
				} else {
					c.Replace(call(simSel("Recv"), n.X))
				}
				fr.changed, fr.needSim = true, true
				fr.stat("chan.recv")
			}
		case *ast.SendStmt:
			if doChan && !commStmts[n] {
				c.Replace(&ast.ExprStmt{X: call(call(simSel("SendTo"), n.Chan), n.Value)})
				fr.changed, fr.needSim = true, true
				fr.stat("chan.send")
			}
		case *ast.RangeStmt:
			if doRange {
				if fr.isMap(n.X) {
					n.X = call(simSel("RangeMap"), n.X)
					fr.changed, fr.needSim = true, true
					fr.stat("range.map")
				} else if doChan && fr.isChan(n.X) {
					n.X = call(simSel("RangeChan"), n.X)
					fr.changed, fr.needSim = true, true
					fr.stat("range.chan")
				}
			}
		case *ast.GoStmt:
			if doGo {
				c.Replace(fr.rewriteGo(n))
				fr.changed, fr.needSim = true, true
				fr.stat("go")
			}
		case *ast.SelectStmt:
			if doSel {
				blk := fr.rewriteSelect(n, nil)
				if ls, ok := c.Parent().(*ast.LabeledStmt); ok && ls.Stmt == n {
					// handled when we reach the LabeledStmt (post-order: child first) —
					// mark by replacing with the block and fix up at the parent.
					c.Replace(blk)
				} else {
					c.Replace(blk)
				}
				fr.changed, fr.needSim = true, true
				fr.stat("select")
			}
		case *ast.LabeledStmt:
			// Label: { decls; switch } -> { decls; Label: switch }
			if blk, ok := n.Stmt.(*ast.BlockStmt); ok && len(blk.List) > 0 {
				if sw, ok := blk.List[len(blk.List)-1].(*ast.SwitchStmt); ok && isSimSwitch(sw) {
					blk.List[len(blk.List)-1] = &ast.LabeledStmt{Label: n.Label, Stmt: sw}
					c.Replace(blk)
				}
			}
		}
		return true
	})
}

// fnYield implements the rule "fnyield" (every function of the file) and
// "fnyield:<prefix>" (functions and methods whose name starts with <prefix>):
// a scheduling point at function entry. It gives the scheduler a say between
// a caller's unsynchronised check and the call it then makes (lazy
// initialisation, check-then-act), which the synchronisation-only yield set
// cannot interleave.
func (fr *fileRewriter) fnYield() {
	for _, r := range fr.rules {
		if r != "fnyield" && !strings.HasPrefix(r, "fnyield:") {
			continue
		}
		prefix := strings.TrimPrefix(strings.TrimPrefix(r, "fnyield"), ":")
		for _, d := range fr.f.Decls {
			fd, ok := d.(*ast.FuncDecl)
			if !ok || fd.Body == nil || fd.Name.Name == "init" || !strings.HasPrefix(fd.Name.Name, prefix) {
				continue
			}
			switch fd.Name.Name {
			case "String", "Error", "Len", "Less", "Swap":
				continue
			}
			y := &ast.ExprStmt{X: call(simSel("Yield"))}
			fd.Body.List = append([]ast.Stmt{y}, fd.Body.List...)
			fr.changed, fr.needSim = true, true
			fr.stat("fnyield")
		}
	}
}

func isSimSwitch(sw *ast.SwitchStmt) bool {
	se, ok := sw.Tag.(*ast.SelectorExpr)
	if !ok {
		return false
	}
	id, ok := se.X.(*ast.Ident)
	return ok && strings.HasPrefix(id.Name, "_simsel")
}

func (fr *fileRewriter) inComm(c *astutil.Cursor, comm map[ast.Stmt]bool) bool {
	switch p := c.Parent().(type) {
	case *ast.ExprStmt:
		return comm[p]
	case *ast.AssignStmt:
		return comm[p]
	case *ast.ParenExpr:
		// (<-ch) as comm: rare; treat as not-in-comm is wrong, so check text
		return false
	}
	return false
}

// rewriteGo: go f(a,b) -> { _f,_a,_b := f,a,b; _h := simrt.Spawn(site); go func(){ if !simrt.TaskStart(_h) {return}; defer simrt.TaskEnd(_h); _f(_a,_b) }() }
func (fr *fileRewriter) rewriteGo(n *ast.GoStmt) ast.Stmt {
	callx := n.Call
	var lhs, rhs []ast.Expr
	bind := func(e ast.Expr) ast.Expr {
		tv, ok := fr.info.Types[e]
		if _, isLit := e.(*ast.FuncLit); isLit {
			return e
		}
		if ok && (tv.Value != nil || tv.IsNil() || tv.IsType() || tv.IsBuiltin()) {
			return e
		}
		name := fr.tmp("g")
		lhs = append(lhs, ast.NewIdent(name))
		rhs = append(rhs, e)
		return ast.NewIdent(name)
	}
	newCall := &ast.CallExpr{Ellipsis: callx.Ellipsis}
	fun := callx.Fun
	switch f := unparen(fun).(type) {
	case *ast.FuncLit:
		newCall.Fun = fun
	case *ast.SelectorExpr:
		// method value or pkg.Func: bind receiver expression only when it is not a package
		if id, ok := f.X.(*ast.Ident); ok && fr.pkgOf(id) != "" {
			newCall.Fun = fun
		} else if tv, ok := fr.info.Types[f.X]; ok && tv.IsType() {
			newCall.Fun = fun
		} else {
			newCall.Fun = bind(fun)
		}
	case *ast.Ident:
		if obj := fr.info.Uses[f]; obj != nil {
			if _, isFunc := obj.(*types.Func); isFunc {
				newCall.Fun = fun
				break
			}
			if _, isBuiltin := obj.(*types.Builtin); isBuiltin {
				newCall.Fun = fun
				break
			}
		}
		newCall.Fun = bind(fun)
	default:
		newCall.Fun = bind(fun)
	}
	for _, a := range callx.Args {
		newCall.Args = append(newCall.Args, bind(a))
	}
	h := fr.tmp("h")
	var stmts []ast.Stmt
	if len(lhs) > 0 {
		stmts = append(stmts, &ast.AssignStmt{Lhs: lhs, Tok: token.DEFINE, Rhs: rhs})
	}
	stmts = append(stmts, &ast.AssignStmt{Lhs: []ast.Expr{ast.NewIdent(h)}, Tok: token.DEFINE,
		Rhs: []ast.Expr{call(simSel("Spawn"), &ast.BasicLit{Kind: token.STRING, Value: strconv.Quote(fr.pos(n))})}})
	body := &ast.BlockStmt{List: []ast.Stmt{
		&ast.IfStmt{Cond: &ast.UnaryExpr{Op: token.NOT, X: call(simSel("TaskStart"), ast.NewIdent(h))},
			Body: &ast.BlockStmt{List: []ast.Stmt{&ast.ReturnStmt{}}}},
		&ast.DeferStmt{Call: call(simSel("TaskEnd"), ast.NewIdent(h))},
		&ast.ExprStmt{X: newCall},
	}}
	stmts = append(stmts, &ast.GoStmt{Call: &ast.CallExpr{Fun: &ast.FuncLit{Type: &ast.FuncType{Params: &ast.FieldList{}}, Body: body}}})
	return &ast.BlockStmt{List: stmts}
}

// rewriteSelect builds { temps; _simselN := simrt.Select(...); switch _simselN.I {...} }
func (fr *fileRewriter) rewriteSelect(n *ast.SelectStmt, _ *ast.Ident) *ast.BlockStmt {
	selName := fr.tmp("sel")
	var pre []ast.Stmt
	var caseArgs []ast.Expr
	var clauses []ast.Stmt
	hasDefault := false
	idx := 0
	for _, cl := range n.Body.List {
		cc := cl.(*ast.CommClause)
		if cc.Comm == nil {
			hasDefault = true
			clauses = append(clauses, &ast.CaseClause{List: nil, Body: cc.Body})
			continue
		}
		var body []ast.Stmt
		switch cm := cc.Comm.(type) {
		case *ast.SendStmt:
			caseArgs = append(caseArgs, call(call(simSel("SOf"), cm.Chan), cm.Value))
		case *ast.ExprStmt:
			u, ok := isRecv(cm.X)
			if !ok {
				panic(fmt.Sprintf("%s: unsupported select comm", fr.pos(cm)))
			}
			caseArgs = append(caseArgs, call(simSel("R"), u.X))
		case *ast.AssignStmt:
			u, ok := isRecv(cm.Rhs[0])
			if !ok {
				panic(fmt.Sprintf("%s: unsupported select comm", fr.pos(cm)))
			}
			cname := fr.tmp("c")
			pre = append(pre, &ast.AssignStmt{Lhs: []ast.Expr{ast.NewIdent(cname)}, Tok: token.DEFINE, Rhs: []ast.Expr{u.X}})
			caseArgs = append(caseArgs, call(simSel("R"), ast.NewIdent(cname)))
			rhs := []ast.Expr{call(simSel("Val"), ast.NewIdent(selName), ast.NewIdent(cname))}
			if len(cm.Lhs) == 2 {
				rhs = append(rhs, call(&ast.SelectorExpr{X: ast.NewIdent(selName), Sel: ast.NewIdent("Ok")}))
			}
			tok := cm.Tok
			// `case _ := ...` cannot happen; `_, _ :=` neither. With DEFINE and all-blank LHS use ASSIGN.
			allBlank := true
			for _, l := range cm.Lhs {
				if id, ok := l.(*ast.Ident); !ok || id.Name != "_" {
					allBlank = false
				}
			}
			if allBlank {
				tok = token.ASSIGN
			}
			body = append(body, &ast.AssignStmt{Lhs: cm.Lhs, Tok: tok, Rhs: rhs})
		}
		body = append(body, cc.Body...)
		clauses = append(clauses, &ast.CaseClause{
			List: []ast.Expr{&ast.BasicLit{Kind: token.INT, Value: strconv.Itoa(idx)}}, Body: body})
		idx++
	}
	hd := "false"
	if hasDefault {
		hd = "true"
	} else {
		// a select without default is a terminating statement; keep that
		// property for the switch.
		clauses = append(clauses, &ast.CaseClause{List: nil, Body: []ast.Stmt{
			&ast.ExprStmt{X: call(ast.NewIdent("panic"), &ast.BasicLit{Kind: token.STRING, Value: `"simrt: select fell through"`})}}})
	}
	args := append([]ast.Expr{ast.NewIdent(hd)}, caseArgs...)
	pre = append(pre, &ast.AssignStmt{Lhs: []ast.Expr{ast.NewIdent(selName)}, Tok: token.DEFINE,
		Rhs: []ast.Expr{call(simSel("Select"), args...)}})
	sw := &ast.SwitchStmt{Tag: &ast.SelectorExpr{X: ast.NewIdent(selName), Sel: ast.NewIdent("I")},
		Body: &ast.BlockStmt{List: clauses}}
	return &ast.BlockStmt{List: append(pre, sw)}
}

// fixImports adds the simrt import and drops imports that became unused.
func (fr *fileRewriter) fixImports() {
	if fr.needSim {
		astutil.AddNamedImport(fr.fset, fr.f, "simrt", SimrtPath)
	}
	// collect used package idents by name
	used := map[string]bool{}
	ast.Inspect(fr.f, func(n ast.Node) bool {
		if se, ok := n.(*ast.SelectorExpr); ok {
			if id, ok := se.X.(*ast.Ident); ok {
				used[id.Name] = true
			}
		}
		return true
	})
	for _, imp := range append([]*ast.ImportSpec(nil), fr.f.Imports...) {
		if imp == nil || imp.Path == nil {
			continue
		}
		path, _ := strconv.Unquote(imp.Path.Value)
		name := ""
		if imp.Name != nil {
			name = imp.Name.Name
			if name == "_" || name == "." {
				continue
			}
		} else {
			// resolve package name from type info
			for _, ip := range fr.pk.Imports {
				if ip.PkgPath == path {
					name = ip.Name
				}
			}
			if name == "" {
				name = filepath.Base(path)
			}
		}
		if path == SimrtPath {
			continue
		}
		if !used[name] {
			if imp.Name != nil {
				astutil.DeleteNamedImport(fr.fset, fr.f, imp.Name.Name, path)
			} else {
				astutil.DeleteImport(fr.fset, fr.f, path)
			}
		}
	}
}

// applyHook prepends the F-seam to a matching function in this file.
func (fr *fileRewriter) applyHook(h Hook, imports map[string]string) (string, bool) {
	for _, d := range fr.f.Decls {
		fd, ok := d.(*ast.FuncDecl)
		if !ok || fd.Body == nil {
			continue
		}
		name := fd.Name.Name
		if fd.Recv != nil && len(fd.Recv.List) == 1 {
			t := fd.Recv.List[0].Type
			if s, ok := t.(*ast.StarExpr); ok {
				t = s.X
			}
			if id, ok := t.(*ast.Ident); ok {
				name = id.Name + "." + name
			}
		}
		if name != h.Func {
			continue
		}
		// build func type text with the receiver as first parameter
		qual := func(p *types.Package) string {
			if p == fr.pk.Types {
				return ""
			}
			imports[p.Path()] = p.Name()
			return p.Name()
		}
		obj := fr.info.Defs[fd.Name].(*types.Func)
		sig := obj.Type().(*types.Signature)
		var params []string
		var args []ast.Expr
		if sig.Recv() != nil {
			params = append(params, types.TypeString(sig.Recv().Type(), qual))
			rn := "_simrecv"
			if len(fd.Recv.List[0].Names) > 0 && fd.Recv.List[0].Names[0].Name != "_" {
				rn = fd.Recv.List[0].Names[0].Name
			} else {
				fd.Recv.List[0].Names = []*ast.Ident{ast.NewIdent(rn)}
			}
			args = append(args, ast.NewIdent(rn))
		}
		pi := 0
		for _, fld := range fd.Type.Params.List {
			if len(fld.Names) == 0 {
				fld.Names = []*ast.Ident{ast.NewIdent(fmt.Sprintf("_simp%d", pi))}
			}
			for _, nm := range fld.Names {
				if nm.Name == "_" {
					nm.Name = fmt.Sprintf("_simp%d", pi)
				}
				args = append(args, ast.NewIdent(nm.Name))
				pi++
			}
		}
		for i := 0; i < sig.Params().Len(); i++ {
			ts := types.TypeString(sig.Params().At(i).Type(), qual)
			if sig.Variadic() && i == sig.Params().Len()-1 {
				ts = "..." + strings.TrimPrefix(ts, "[]")
			}
			params = append(params, ts)
		}
		var results []string
		for i := 0; i < sig.Results().Len(); i++ {
			results = append(results, types.TypeString(sig.Results().At(i).Type(), qual))
		}
		decl := fmt.Sprintf("var %s func(%s) (%s)", h.Var, strings.Join(params, ", "), strings.Join(results, ", "))
		callx := &ast.CallExpr{Fun: ast.NewIdent("_simhook"), Args: args}
		if sig.Variadic() {
			callx.Ellipsis = token.Pos(1)
		}
		var inner ast.Stmt
		if sig.Results().Len() > 0 {
			inner = &ast.ReturnStmt{Results: []ast.Expr{callx}}
		} else {
			inner = &ast.BlockStmt{List: []ast.Stmt{&ast.ExprStmt{X: callx}, &ast.ReturnStmt{}}}
		}
		var innerList []ast.Stmt
		if b, ok := inner.(*ast.BlockStmt); ok {
			innerList = b.List
		} else {
			innerList = []ast.Stmt{inner}
		}
		ifs := &ast.IfStmt{
			Init: &ast.AssignStmt{Lhs: []ast.Expr{ast.NewIdent("_simhook")}, Tok: token.DEFINE, Rhs: []ast.Expr{ast.NewIdent(h.Var)}},
			Cond: &ast.BinaryExpr{X: ast.NewIdent("_simhook"), Op: token.NEQ, Y: ast.NewIdent("nil")},
			Body: &ast.BlockStmt{List: innerList},
		}
		fd.Body.List = append([]ast.Stmt{ifs}, fd.Body.List...)
		fr.changed = true
		fr.stat("hook")
		return decl, true
	}
	return "", false
}

func (fr *fileRewriter) applyConst(c ConstOverride) {
	// package-level and function-local const/var declarations alike (a local
	// `const chunkSize = 900` is a tuning knob just as a package-level one is)
	ast.Inspect(fr.f, func(n ast.Node) bool {
		gd, ok := n.(*ast.GenDecl)
		if !ok || (gd.Tok != token.CONST && gd.Tok != token.VAR) {
			return true
		}
		for _, sp := range gd.Specs {
			vs := sp.(*ast.ValueSpec)
			for i, nm := range vs.Names {
				if nm.Name == c.Name && i < len(vs.Values) {
					vs.Values[i] = &ast.BasicLit{Kind: token.INT, Value: c.Value}
					fr.changed = true
					fr.stat("const")
				}
			}
		}
		return true
	})
}
