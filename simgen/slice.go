package simgen

import (
	"fmt"
	"go/ast"
	"go/parser"
	"go/token"
	"strings"
)

// mainSlice implements rule X-slice on cmd/arc/main.go: the statements of
// main() from `var walWriter *wal.Writer` through `if walRecovery != nil {…}`
// are copied (after instrumentation) into
//
//	func simBootIngest(cfg *config.Config, storageBackend storage.Backend,
//	    shutdownCoordinator *shutdown.Coordinator) (*ingest.ArrowBuffer, *wal.Writer)
//
// and main is renamed arcMain so the harness can provide its own main.
func (fr *fileRewriter) mainSlice() error {
	var mainFn *ast.FuncDecl
	for _, d := range fr.f.Decls {
		if fd, ok := d.(*ast.FuncDecl); ok && fd.Recv == nil && fd.Name.Name == "main" {
			mainFn = fd
		}
	}
	if mainFn == nil {
		return fmt.Errorf("X-slice: func main not found in %s", fr.base)
	}
	first, last := -1, -1
	for i, st := range mainFn.Body.List {
		if ds, ok := st.(*ast.DeclStmt); ok && first < 0 {
			if gd, ok := ds.Decl.(*ast.GenDecl); ok && gd.Tok == token.VAR && len(gd.Specs) == 1 {
				vs := gd.Specs[0].(*ast.ValueSpec)
				if len(vs.Names) == 1 && vs.Names[0].Name == "walWriter" {
					first = i
				}
			}
		}
		if is, ok := st.(*ast.IfStmt); ok && first >= 0 && last < 0 && is.Init == nil {
			if be, ok := is.Cond.(*ast.BinaryExpr); ok && be.Op == token.NEQ {
				if x, ok := be.X.(*ast.Ident); ok && x.Name == "walRecovery" {
					if y, ok := be.Y.(*ast.Ident); ok && y.Name == "nil" {
						last = i
					}
				}
			}
		}
	}
	if first < 0 || last < 0 || last <= first {
		return fmt.Errorf("X-slice: anchors not found in main() (first=%d last=%d)", first, last)
	}
	// Free-variable check: every identifier used in the slice that resolves
	// to an object declared in main() before the slice must be a parameter.
	params := map[string]bool{"cfg": true, "storageBackend": true, "shutdownCoordinator": true}
	declaredBefore := map[string]bool{}
	for _, st := range mainFn.Body.List[:first] {
		ast.Inspect(st, func(n ast.Node) bool {
			switch x := n.(type) {
			case *ast.AssignStmt:
				if x.Tok == token.DEFINE {
					for _, l := range x.Lhs {
						if id, ok := l.(*ast.Ident); ok {
							declaredBefore[id.Name] = true
						}
					}
				}
			case *ast.ValueSpec:
				for _, nm := range x.Names {
					declaredBefore[nm.Name] = true
				}
			case *ast.FuncLit, *ast.BlockStmt:
				return n == st // only top-level declarations of main matter
			}
			return true
		})
	}
	free := map[string]bool{}
	for _, st := range mainFn.Body.List[first : last+1] {
		ast.Inspect(st, func(n ast.Node) bool {
			id, ok := n.(*ast.Ident)
			if !ok {
				return true
			}
			obj := fr.info.Uses[id]
			if obj == nil || obj.Parent() == nil {
				return true
			}
			// declared in main's top-level scope before the slice?
			if obj.Pos() >= mainFn.Body.Pos() && obj.Pos() < mainFn.Body.List[first].Pos() && declaredBefore[id.Name] {
				// only objects in main's outermost scope
				if sc := fr.info.Scopes[mainFn.Type]; sc != nil && obj.Parent() == sc {
					free[id.Name] = true
				}
			}
			return true
		})
	}
	for name := range free {
		if !params[name] && name != "err" {
			return fmt.Errorf("X-slice: unexpected free variable %q in the ingest boot slice of main()", name)
		}
	}
	stmts := append([]ast.Stmt(nil), mainFn.Body.List[first:last+1]...)
	if free["err"] {
		pre, _ := parseStmts("var err error\n_ = err")
		stmts = append(pre, stmts...)
	}
	ret, _ := parseStmts("return arrowBuffer, walWriter")
	stmts = append(stmts, ret...)
	sigSrc := `package p
func simBootIngest(cfg *config.Config, storageBackend storage.Backend, shutdownCoordinator *shutdown.Coordinator) (*ingest.ArrowBuffer, *wal.Writer) {}`
	pf, err := parser.ParseFile(token.NewFileSet(), "", sigSrc, 0)
	if err != nil {
		return err
	}
	fd := pf.Decls[0].(*ast.FuncDecl)
	stripPos(fd)
	fd.Body = &ast.BlockStmt{List: stmts}
	fr.f.Decls = append(fr.f.Decls, fd)
	mainFn.Name.Name = "arcMain"
	fr.changed = true
	fr.stat("slice")
	return nil
}

func stripPos(n ast.Node) {
	ast.Inspect(n, func(x ast.Node) bool {
		switch v := x.(type) {
		case *ast.Ident:
			v.NamePos = 0
		case *ast.StarExpr:
			v.Star = 0
		case *ast.FuncType:
			v.Func = 0
		case *ast.FieldList:
			v.Opening, v.Closing = 0, 0
		case *ast.FuncDecl:
		}
		return true
	})
}

func parseStmts(src string) ([]ast.Stmt, error) {
	f, err := parser.ParseFile(token.NewFileSet(), "", "package p\nfunc _() {\n"+src+"\n}", 0)
	if err != nil {
		return nil, err
	}
	body := f.Decls[0].(*ast.FuncDecl).Body
	for _, s := range body.List {
		zeroPos(s)
	}
	return body.List, nil
}

// zeroPos clears positions so the printer does not try to honour line
// numbers from a different file set.
func zeroPos(n ast.Node) {
	ast.Inspect(n, func(x ast.Node) bool {
		switch v := x.(type) {
		case *ast.Ident:
			v.NamePos = 0
		case *ast.ReturnStmt:
			v.Return = 0
		case *ast.GenDecl:
			v.TokPos, v.Lparen, v.Rparen = 0, 0, 0
		case *ast.AssignStmt:
			v.TokPos = 0
		}
		return true
	})
}

var _ = strings.TrimSpace
