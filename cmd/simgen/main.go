// Command simgen instruments arc packages for one area profile (see
// /verif/DESIGN.md §2.1) and prints the overlay path.
package main

import (
	"encoding/json"
	"flag"
	"fmt"
	"os"
	"sort"

	"verif/simgen"
)

func main() {
	repo := flag.String("repo", "/repo", "arc working tree")
	verif := flag.String("verif", "/verif", "verif dir")
	out := flag.String("out", "", "scratch output dir")
	prof := flag.String("profile", "", "profile json")
	flag.Parse()
	b, err := os.ReadFile(*prof)
	if err != nil {
		fmt.Fprintln(os.Stderr, "HARNESS-ERROR", err)
		os.Exit(2)
	}
	var p simgen.Profile
	if err := json.Unmarshal(b, &p); err != nil {
		fmt.Fprintln(os.Stderr, "HARNESS-ERROR profile:", err)
		os.Exit(2)
	}
	res, err := simgen.Generate(*repo, *verif, *out, &p)
	if err != nil {
		fmt.Fprintln(os.Stderr, "HARNESS-ERROR simgen:", err)
		os.Exit(2)
	}
	keys := make([]string, 0, len(res.Stats))
	for k := range res.Stats {
		keys = append(keys, k)
	}
	sort.Strings(keys)
	for _, k := range keys {
		fmt.Fprintf(os.Stderr, "  %s=%d\n", k, res.Stats[k])
	}
	for _, w := range res.Warnings {
		fmt.Fprintln(os.Stderr, "warning:", w)
	}
	fmt.Println(res.OverlayPath)
}
