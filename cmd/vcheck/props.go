package main

import "time"

var ingestReal = []string{"internal/ingest (ArrowBuffer, ArrowWriter, msgpack/line-protocol decoders)", "internal/wal (Writer, Reader, Recovery)", "internal/shutdown.Coordinator", "internal/storage.LocalBackend", "internal/api MsgPackHandler + LineProtocolHandler via in-process Fiber", "cmd/arc main(): WAL/buffer boot, wal-purge hook, start-up recovery, periodic WAL maintenance (extracted verbatim by simgen X-slice)", "arrow-go parquet writer; pqarrow reader for read-back"}
var commonStub = []string{"Go scheduler choice (simrt cooperative scheduler, seeded)", "wall clock, timers, tickers, context deadlines (simrt discrete-event clock)", "map iteration order (sorted + seeded permutation)", "os/filepath calls of instrumented packages (pass-through to real files + fault/crash injection)"}

var props = map[string]propCfg{
	"C03": {Area: "ingest", Level: "exploration", Quick: 25 * time.Second, Thorough: 10 * time.Minute,
		Real: ingestReal, Stub: append([]string{"storage faults: a wrapper around LocalBackend adds latency and (optionally) honours context cancellation like the S3/Azure backends"}, commonStub...)},
}
