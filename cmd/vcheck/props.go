package main

import "time"

var ingestReal = []string{"internal/ingest (ArrowBuffer, ArrowWriter, msgpack/line-protocol decoders)", "internal/wal (Writer, Reader, Recovery)", "internal/shutdown.Coordinator", "internal/storage.LocalBackend", "internal/api MsgPackHandler + LineProtocolHandler via in-process Fiber", "cmd/arc main(): WAL/buffer boot, wal-purge hook, start-up recovery, periodic WAL maintenance (extracted verbatim by simgen X-slice)", "arrow-go parquet writer; pqarrow reader for read-back"}
var commonStub = []string{"Go scheduler choice (simrt cooperative scheduler, seeded)", "wall clock, timers, tickers, context deadlines (simrt discrete-event clock)", "map iteration order (sorted + seeded permutation)", "os/filepath calls of instrumented packages (pass-through to real files + fault/crash injection)"}
var ingestStub = append([]string{"storage faults: a wrapper around LocalBackend adds latency, injected write failures and (optionally) honours context cancellation like the S3/Azure backends"}, commonStub...)

var props = map[string]propCfg{
	"C13": {Area: "backup", Level: "exploration", Quick: 25 * time.Second, Thorough: 10 * time.Minute,
		Real:   []string{"backup.Manager (NewManager, CreateBackup, copyDataFiles, checkSkipRatio, streamBackupFile, RestoreBackup, restoreDataFiles, streamRestoreFile, SQLite/config backup+restore, manifests, GetBackup/GetProgress)", "storage.LocalBackend for data and backup storage", "go-sqlite3 WAL checkpoint"},
		Stub:   append([]string{"remote-backend style failures by a storage.Backend wrapper over LocalBackend", "compaction/retention = a task deleting source files during the backup"}, commonStub...),
		Assume: []string{"storage never reports success for data it did not store/return", "BackupHandler HTTP layer not driven (it only forwards to Manager and exposes GetProgress)", "S3/Azure backends not exercised"}},
	"C08": {Area: "localfs", Level: "fault_enumeration", Quick: 25 * time.Second, Thorough: 10 * time.Minute,
		Real:  []string{"internal/storage.LocalBackend (Write, WriteReader, AppendReader, Delete, StatFile, Read, ReadToAt, List, Exists, RemoveDirectory, ListObjects)", "internal/cluster/raft.ValidateManifestPath", "internal/edgesync validateSyncPath / validateSpokeID / NamespacedPath"},
		Stub:  commonStub,
		Rule:  "Each generated case is a sequence of 1-4 backend operations with adversarial keys ('..', absolute, NUL, backslash, unicode, long, staging-like names) routed through the validator its real caller applies. The sequence is executed fault-free, then re-executed once per (mutating file-system operation index x {crash-before, crash-after, torn write, EIO, ENOSPC/short write}) - the complete single-fault space of that sequence. evaluations = executions; distinct_nontrivial = distinct fault-free trace hashes of cases with at least one mutating fs operation.",
		Assume: []string{"two writers racing on the SAME key share one <key>.part staging name; that schedule dimension is outside the property's quantifier (inputs, crash points) and is not judged"}},
	"C06": {Area: "walfile", Level: "fault_enumeration", Quick: 25 * time.Second, Thorough: 10 * time.Minute,
		Real:  []string{"internal/wal Writer (all three append forms, rotation) producing the files under the simulator", "internal/wal Reader.ReadAll and Recovery.RecoverWithOptions on every faulted image"},
		Stub:  commonStub,
		Rule:  "Each generated log (1-8 appends of raw/enveloped/row entries, rotation by size) is written by the real Writer; then EVERY truncation offset of every file and single-byte corruptions of EVERY byte (all 255 values on entry-header and envelope bytes for files <= 700 bytes, 3-7 values elsewhere; thorough adds 300 seeded double faults + truncation per file) are read back. evaluations = fault positions evaluated; distinct_nontrivial = distinct generated logs (trace hash of the writer run).",
		Assume: []string{"entry identity is semantic: the reader returns decoded entries, compared (with database) against the harness's own copy of the appended objects"}},
	"C03": {Area: "ingest", Level: "exploration", Quick: 25 * time.Second, Thorough: 10 * time.Minute, Real: ingestReal, Stub: ingestStub},
	"C04": {Area: "ingest", Level: "exploration", Quick: 30 * time.Second, Thorough: 10 * time.Minute, Real: ingestReal, Stub: ingestStub,
		Assume: []string{"request bodies come from a seeded structure-aware generator plus byte-level mutations (not coverage-guided); import/TLE endpoints are not driven"}},
	"C05": {Area: "ingest", Level: "exploration", Quick: 30 * time.Second, Thorough: 12 * time.Minute, Real: ingestReal, Stub: ingestStub,
		Assume: []string{"'WAL entry reached the file' is decided by an independent parser of the WAL files at the crash instant (complete entry with matching CRC), plus rows already in complete Parquet files"}},
	"C07": {Area: "ingest", Level: "exploration", Quick: 30 * time.Second, Thorough: 12 * time.Minute, Real: ingestReal, Stub: ingestStub,
		Assume: []string{"liveness budget after faults stop: 3 x (WAL maintenance interval + safeAge + max buffer age + 5 s) of simulated time, optional clean restart"}},
}
