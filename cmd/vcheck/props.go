package main

import "time"

var ingestReal = []string{"internal/ingest (ArrowBuffer, ArrowWriter, msgpack/line-protocol decoders)", "internal/wal (Writer, Reader, Recovery)", "internal/shutdown.Coordinator", "internal/storage.LocalBackend", "internal/api MsgPackHandler + LineProtocolHandler via in-process Fiber", "cmd/arc main(): WAL/buffer boot, wal-purge hook, start-up recovery, periodic WAL maintenance (extracted verbatim by simgen X-slice)", "arrow-go parquet writer; pqarrow reader for read-back"}
var commonStub = []string{"Go scheduler choice (simrt cooperative scheduler, seeded)", "wall clock, timers, tickers, context deadlines (simrt discrete-event clock)", "map iteration order (sorted + seeded permutation)", "os/filepath calls of instrumented packages (pass-through to real files + fault/crash injection)"}
var ingestStub = append([]string{"storage faults: a wrapper around LocalBackend adds latency, injected write failures and (optionally) honours context cancellation like the S3/Azure backends"}, commonStub...)

var props = map[string]propCfg{
	"C03": {Area: "ingest", Level: "exploration", Quick: 25 * time.Second, Thorough: 10 * time.Minute, Real: ingestReal, Stub: ingestStub},
	"C04": {Area: "ingest", Level: "exploration", Quick: 30 * time.Second, Thorough: 10 * time.Minute, Real: ingestReal, Stub: ingestStub,
		Assume: []string{"request bodies come from a seeded structure-aware generator plus byte-level mutations (not coverage-guided); import/TLE endpoints are not driven"}},
	"C05": {Area: "ingest", Level: "exploration", Quick: 30 * time.Second, Thorough: 12 * time.Minute, Real: ingestReal, Stub: ingestStub,
		Assume: []string{"'WAL entry reached the file' is decided by an independent parser of the WAL files at the crash instant (complete entry with matching CRC), plus rows already in complete Parquet files"}},
	"C07": {Area: "ingest", Level: "exploration", Quick: 30 * time.Second, Thorough: 12 * time.Minute, Real: ingestReal, Stub: ingestStub,
		Assume: []string{"liveness budget after faults stop: 3 x (WAL maintenance interval + safeAge + max buffer age + 5 s) of simulated time, optional clean restart"}},
}
