// Command vcheck runs one property check: instrument /repo's working tree
// (simgen), build the area binary, fan out seeded simulation workers, confirm
// and report violations, write the evidence file.
//
//	vcheck C03 --tier quick [--seed N]
//
// exit 0: property held on everything explored (KNOWN-FINDING lines possible)
// exit 1: VIOLATION property=<id> replay=<path>
// exit 2: harness trouble (HARNESS-ERROR), never a verdict
package main

import (
	"bufio"
	"bytes"
	"encoding/json"
	"flag"
	"fmt"
	"os"
	"os/exec"
	"os/signal"
	"path/filepath"
	"sort"
	"strconv"
	"strings"
	"sync"
	"syscall"
	"time"

	"verif/simgen"
)

const verifDir = "/verif"

// repoDir is /repo; VERIF_REPO overrides it for development against a scratch
// worktree (never used by the registered commands).
var repoDir = func() string {
	if r := os.Getenv("VERIF_REPO"); r != "" {
		return r
	}
	return "/repo"
}()

type propCfg struct {
	Area      string
	Level     string // evidence level
	Quick     time.Duration
	Thorough  time.Duration
	Workers   int
	Real      []string
	Stub      []string
	Assume    []string
	Rule      string
	ExtraArgs []string
}

type summary struct {
	Property     string            `json:"property"`
	Worker       int               `json:"worker"`
	Runs         int64             `json:"runs"`
	Evals        int64             `json:"evals"`
	Discarded    int64             `json:"discarded"`
	Nontrivial   int64             `json:"nontrivial"`
	Hashes       []uint64          `json:"hashes"`
	HashOverflow bool              `json:"hash_overflow"`
	Stats        map[string]int64  `json:"stats"`
	SimNs        int64             `json:"sim_ns"`
	Steps        int64             `json:"steps"`
	Policies     map[string]int64  `json:"policies"`
	Samples      []any             `json:"samples"`
	Replays      []string          `json:"replays"`
	Rules        map[string]string `json:"rules"`
	DetChecked   int64             `json:"det_checked"`
	DetMismatch  int64             `json:"det_mismatch"`
	SimOutcomes  map[string]int64  `json:"sim_outcomes"`
	WallS        float64           `json:"wall_s"`
	HarnessErr   string            `json:"harness_error"`
}

type finding struct {
	Property string `json:"property"`
	Rule     string `json:"rule"`
	Status   string `json:"status"` // known | fixed
	Commit   string `json:"commit,omitempty"`
	What     string `json:"what"`
	Replay   string `json:"replay,omitempty"`
}

func fatal(format string, args ...any) {
	fmt.Fprintf(os.Stderr, "HARNESS-ERROR "+format+"\n", args...)
	fmt.Printf("HARNESS-ERROR "+format+"\n", args...)
	cleanup()
	os.Exit(2)
}

var scratch string

func cleanup() {
	if scratch != "" {
		os.RemoveAll(scratch)
	}
}

func goEnv() []string {
	env := os.Environ()
	env = append(env, "GOFLAGS=-mod=mod", "GOPROXY=off", "GOSUMDB=off", "GOTOOLCHAIN=local",
		"PATH=/opt/veriftools/go1.26.8/bin:"+os.Getenv("PATH"))
	return env
}

func main() {
	tier := flag.String("tier", os.Getenv("VERIF_TIER"), "quick|thorough")
	seedFlag := flag.String("seed", os.Getenv("VERIF_SEED"), "base seed")
	workersFlag := flag.Int("workers", 0, "override worker count")
	budgetFlag := flag.Duration("budget", 0, "override search budget")
	keep := flag.Bool("keep", false, "keep scratch dir")
	replay := flag.String("replay", "", "replay file: rebuild and re-execute it")
	selftest := flag.Bool("selftest", false, "cross-process determinism self-test for the property's area")
	args := os.Args[1:]
	var prop string
	if len(args) > 0 && !strings.HasPrefix(args[0], "-") {
		prop = args[0]
		args = args[1:]
	}
	flag.CommandLine.Parse(args)
	if prop == "" && flag.NArg() > 0 {
		prop = flag.Arg(0)
	}
	if *tier == "" {
		*tier = "quick"
	}
	cfg, ok := props[prop]
	if !ok {
		fatal("unknown property %q", prop)
	}
	var seed uint64
	if *seedFlag != "" {
		v, err := strconv.ParseUint(*seedFlag, 10, 64)
		if err != nil {
			// tolerate negative or huge ints
			iv, err2 := strconv.ParseInt(*seedFlag, 10, 64)
			if err2 != nil {
				fatal("bad seed %q", *seedFlag)
			}
			v = uint64(iv)
		}
		seed = v
	} else {
		seed = uint64(time.Now().UnixNano())
	}
	fmt.Printf("vcheck property=%s tier=%s VERIF_SEED=%d\n", prop, *tier, seed)
	start := time.Now()

	base := os.Getenv("VERIF_SCRATCH")
	if base == "" {
		base = "/dev/shm"
		if st, err := os.Stat(base); err != nil || !st.IsDir() {
			base = "/var/tmp"
		}
	}
	scratch = filepath.Join(base, fmt.Sprintf("verif.%d", os.Getpid()))
	os.RemoveAll(scratch)
	if err := os.MkdirAll(scratch, 0o755); err != nil {
		fatal("scratch: %v", err)
	}
	if !*keep {
		defer cleanup()
	}
	sig := make(chan os.Signal, 1)
	signal.Notify(sig, syscall.SIGINT, syscall.SIGTERM)
	go func() { <-sig; cleanup(); os.Exit(2) }()

	bin := buildArea(cfg.Area)

	if *replay != "" {
		code := runReplay(bin, prop, *replay, true)
		cleanup()
		os.Exit(code)
	}
	if *selftest {
		code := selfTest(bin, prop, seed)
		cleanup()
		os.Exit(code)
	}

	budget := cfg.Quick
	if *tier == "thorough" {
		budget = cfg.Thorough
	}
	if *budgetFlag > 0 {
		budget = *budgetFlag
	}
	workers := cfg.Workers
	if workers == 0 {
		workers = 14
	}
	if *workersFlag > 0 {
		workers = *workersFlag
	}
	var knownList []string
	for _, k := range loadFindings() {
		if k.Property == prop && k.Status == "known" {
			knownList = append(knownList, k.Rule)
		}
	}
	replayTmp := filepath.Join(scratch, "replays")
	os.MkdirAll(replayTmp, 0o755)
	sums := make([]*summary, workers)
	errs := make([]string, workers)
	var wg sync.WaitGroup
	for w := 0; w < workers; w++ {
		wg.Add(1)
		go func(w int) {
			defer wg.Done()
			a := []string{"-prop", prop, "-seed", strconv.FormatUint(seed, 10), "-worker", strconv.Itoa(w), "-tier", *tier,
				"-budget", budget.String(), "-replaydir", replayTmp}
			if len(knownList) > 0 {
				a = append(a, "-known", strings.Join(knownList, ","))
			}
			a = append(a, cfg.ExtraArgs...)
			cmd := exec.Command(bin, a...)
			cmd.Env = append(os.Environ(), "GOMAXPROCS=2", "VERIF_SCRATCH="+scratch)
			cmd.Dir = scratch
			var stdout, stderr bytes.Buffer
			cmd.Stdout, cmd.Stderr = &stdout, &stderr
			err := cmd.Run()
			code := 0
			if ee, ok := err.(*exec.ExitError); ok {
				code = ee.ExitCode()
			} else if err != nil {
				errs[w] = err.Error()
				return
			}
			sc := bufio.NewScanner(&stdout)
			sc.Buffer(make([]byte, 1<<20), 256<<20)
			for sc.Scan() {
				l := sc.Text()
				if strings.HasPrefix(l, "SUMMARY ") {
					var s summary
					if err := json.Unmarshal([]byte(l[8:]), &s); err == nil {
						sums[w] = &s
					}
				}
			}
			if code == 2 || sums[w] == nil {
				tail := stderr.String()
				if len(tail) > 8000 {
					tail = tail[:4000] + "\n...[stderr cut]...\n" + tail[len(tail)-4000:]
				}
				errs[w] = fmt.Sprintf("worker %d exit %d: %s", w, code, tail)
			}
		}(w)
	}
	wg.Wait()
	for _, e := range errs {
		if e != "" {
			// keep replay of harness trouble for diagnosis
			fatal("%s", e)
		}
	}

	// merge
	total := &summary{Stats: map[string]int64{}, Policies: map[string]int64{}, Rules: map[string]string{}, SimOutcomes: map[string]int64{}}
	hashes := map[uint64]bool{}
	for _, s := range sums {
		total.Runs += s.Runs
		total.Evals += s.Evals
		total.Discarded += s.Discarded
		total.Nontrivial += s.Nontrivial
		total.SimNs += s.SimNs
		total.Steps += s.Steps
		total.DetChecked += s.DetChecked
		total.DetMismatch += s.DetMismatch
		for _, h := range s.Hashes {
			hashes[h] = true
		}
		for k, v := range s.Stats {
			total.Stats[k] += v
		}
		for k, v := range s.Policies {
			total.Policies[k] += v
		}
		for k, v := range s.SimOutcomes {
			total.SimOutcomes[k] += v
		}
		if len(total.Samples) < 3 {
			total.Samples = append(total.Samples, s.Samples...)
		}
		for r, p := range s.Rules {
			if _, ok := total.Rules[r]; !ok {
				total.Rules[r] = p
			}
		}
	}
	if len(total.Samples) > 3 {
		total.Samples = total.Samples[:3]
	}
	// Workers abort (exit 2) on systematic nondeterminism themselves; isolated
	// transient mismatches (arbitrated by a third execution) are reported in
	// the evidence file.
	if total.DetMismatch > 3 {
		fatal("nondeterministic batch: %d mismatches", total.DetMismatch)
	}

	// classify violations
	known := loadFindings()
	var rules []string
	for r := range total.Rules {
		rules = append(rules, r)
	}
	sort.Strings(rules)
	exit := 0
	nViol := 0
	var knownSeen []string
	os.MkdirAll(filepath.Join(verifDir, "replays"), 0o755)
	for _, r := range rules {
		src := total.Rules[r]
		var kf *finding
		for i := range known {
			if known[i].Property == prop && known[i].Rule == r && known[i].Status == "known" {
				kf = &known[i]
			}
		}
		// confirm in a fresh process
		code := runReplay(bin, prop, src, false)
		if code == 2 {
			fatal("replay of %s could not be executed", src)
		}
		if code != 1 {
			fatal("violation %s did not reproduce from its replay file %s (exit %d): result not believed", r, src, code)
		}
		if kf != nil {
			fmt.Printf("KNOWN-FINDING: property=%s %s — %s\n", prop, r, kf.What)
			knownSeen = append(knownSeen, r)
			continue
		}
		dst := filepath.Join(verifDir, "replays", filepath.Base(src))
		b, _ := os.ReadFile(src)
		os.WriteFile(dst, b, 0o644)
		fmt.Printf("VIOLATION property=%s replay=%s rule=%s\n", prop, dst, r)
		nViol++
		exit = 1
	}
	for _, k := range known {
		if k.Property == prop && k.Status == "known" {
			seen := false
			for _, r := range knownSeen {
				if r == k.Rule {
					seen = true
				}
			}
			if !seen {
				fmt.Printf("KNOWN-FINDING: property=%s %s — %s (listed; not re-encountered by this run's seeds)\n", prop, k.Rule, k.What)
			}
		}
	}

	wall := time.Since(start).Seconds()
	writeEvidence(prop, cfg, *tier, seed, total, len(hashes), nViol, knownSeen, wall, workers, budget)
	fmt.Printf("vcheck done property=%s runs=%d nontrivial_distinct=%d violations=%d known=%d wall=%.1fs\n", prop, total.Runs, len(hashes), nViol, len(knownSeen), wall)
	cleanup()
	os.Exit(exit)
}

func loadFindings() []finding {
	b, err := os.ReadFile(filepath.Join(verifDir, "known_findings.json"))
	if err != nil {
		return nil
	}
	var f []finding
	if err := json.Unmarshal(b, &f); err != nil {
		fatal("known_findings.json: %v", err)
	}
	return f
}

func loadProfile(area string) *simgen.Profile {
	b, err := os.ReadFile(filepath.Join(verifDir, "profiles", area+".json"))
	if err != nil {
		fatal("profile: %v", err)
	}
	var p simgen.Profile
	if err := json.Unmarshal(b, &p); err != nil {
		fatal("profile %s: %v", area, err)
	}
	return &p
}

// buildArea instruments and builds the area binary from /repo's current tree.
func buildArea(area string) string {
	p := loadProfile(area)
	out := filepath.Join(scratch, "gen")
	os.Setenv("PATH", "/opt/veriftools/go1.26.8/bin:"+os.Getenv("PATH"))
	for _, kv := range []string{"GOFLAGS=-mod=mod", "GOPROXY=off", "GOSUMDB=off", "GOTOOLCHAIN=local"} {
		i := strings.IndexByte(kv, '=')
		os.Setenv(kv[:i], kv[i+1:])
	}
	t0 := time.Now()
	res, err := func() (r *simgen.Result, err error) {
		defer func() {
			if x := recover(); x != nil {
				err = fmt.Errorf("simgen panic: %v", x)
			}
		}()
		return simgen.Generate(repoDir, verifDir, out, p)
	}()
	if err != nil {
		fatal("simgen (%s): %v", area, err)
	}
	for _, f := range []string{"go.mod", "go.sum"} {
		b, err := os.ReadFile(filepath.Join(repoDir, f))
		if err != nil {
			fatal("%v", err)
		}
		os.WriteFile(filepath.Join(out, f), b, 0o644)
	}
	if p.ExtraRequire != "" {
		f, _ := os.OpenFile(filepath.Join(out, "go.mod"), os.O_APPEND|os.O_WRONLY, 0o644)
		fmt.Fprintf(f, "\nrequire %s\n", p.ExtraRequire)
		f.Close()
	}
	bin := filepath.Join(scratch, area+".bin")
	tags := p.Tags
	if tags == "" {
		tags = "verif"
	}
	cmd := exec.Command("go1.26.8", "build", "-modfile="+filepath.Join(out, "go.mod"), "-overlay", res.OverlayPath, "-tags", tags, "-o", bin, "./"+p.Target)
	cmd.Dir = repoDir
	cmd.Env = goEnv()
	var outb bytes.Buffer
	cmd.Stdout, cmd.Stderr = &outb, &outb
	if err := cmd.Run(); err != nil {
		s := outb.String()
		if len(s) > 8000 {
			s = s[:8000]
		}
		fatal("build of instrumented area %s failed (the working tree does not compile after instrumentation): %v\n%s", area, err, s)
	}
	fmt.Printf("built area=%s in %.1fs\n", area, time.Since(t0).Seconds())
	return bin
}

func runReplay(bin, prop, path string, verbose bool) int {
	cmd := exec.Command(bin, "-prop", prop, "-replay", path)
	cmd.Env = append(os.Environ(), "VERIF_SCRATCH="+scratch)
	if verbose {
		cmd.Env = append(cmd.Env, "VERIF_REPLAY_VERBOSE=1")
	}
	cmd.Dir = scratch
	var outb bytes.Buffer
	cmd.Stdout, cmd.Stderr = &outb, &outb
	err := cmd.Run()
	if verbose {
		fmt.Print(outb.String())
	}
	if ee, ok := err.(*exec.ExitError); ok {
		if ee.ExitCode() == 2 && !verbose {
			// say why: head and tail of what the replay process printed
			o := outb.String()
			if len(o) > 3000 {
				o = o[:1500] + "\n...\n" + o[len(o)-1500:]
			}
			fmt.Fprintf(os.Stderr, "replay process exit 2:\n%s\n", o)
		}
		return ee.ExitCode()
	}
	if err != nil {
		fmt.Fprintf(os.Stderr, "replay process could not be started: %v\n", err)
		return 2
	}
	return 0
}

// selfTest: same seeds in separate processes at GOMAXPROCS 1/4/16 must give
// identical per-run trace hashes.
func selfTest(bin, prop string, seed uint64) int {
	var ref []string
	selfRuns := "40"
	if props[prop].Level == "fault_enumeration" {
		selfRuns = "8" // each run enumerates thousands of fault positions
	}
	for _, gmp := range []string{"1", "4", "16", "4"} {
		cmd := exec.Command(bin, "-prop", prop, "-seed", strconv.FormatUint(seed, 10), "-runs", selfRuns, "-traceonly", "-detpct", "0", "-maxviol", "1000", "-shrink", "0s",
			"-replaydir", filepath.Join(scratch, "st-replays"))
		cmd.Env = append(os.Environ(), "GOMAXPROCS="+gmp, "VERIF_SCRATCH="+scratch)
		cmd.Dir = scratch
		out, _ := cmd.Output()
		var tr []string
		for _, l := range strings.Split(string(out), "\n") {
			if strings.HasPrefix(l, "TRACE ") {
				tr = append(tr, l)
			}
		}
		if len(tr) == 0 {
			fmt.Println("HARNESS-ERROR selftest produced no traces")
			return 2
		}
		if ref == nil {
			ref = tr
			continue
		}
		if strings.Join(ref, "\n") != strings.Join(tr, "\n") {
			for i := range ref {
				if i >= len(tr) || ref[i] != tr[i] {
					fmt.Printf("HARNESS-ERROR nondeterminism at run %d (GOMAXPROCS=%s): %s vs %s\n", i, gmp, ref[i], tr[min(i, len(tr)-1)])
					break
				}
			}
			return 2
		}
	}
	fmt.Printf("selftest ok property=%s: %d runs × 4 processes (GOMAXPROCS 1/4/16/4) identical trace hashes\n", prop, len(ref))
	return 0
}

func writeEvidence(prop string, cfg propCfg, tier string, seed uint64, t *summary, distinct int, nViol int, knownSeen []string, wall float64, workers int, budget time.Duration) {
	faults := map[string]int64{}
	probes := map[string]int64{}
	notes := map[string]int64{}
	for k, v := range t.Stats {
		switch {
		case strings.HasPrefix(k, "fault."):
			faults[k[6:]] = v
		case strings.HasPrefix(k, "probe."):
			probes[k[6:]] = v
		default:
			notes[k] = v
		}
	}
	samples := t.Samples
	if len(samples) == 0 {
		samples = []any{"no non-trivial sample recorded"}
	}
	rph := 0.0
	if wall > 0 {
		rph = float64(t.Runs) / wall * 3600
	}
	rule := cfg.Rule
	if rule == "" {
		rule = "Each evaluation is one simulated run: a seeded plan (workload, knobs, faults) executed under a seeded schedule. A run is non-trivial when the scheduler faced at least one real choice (or a fault fired) and the oracle was reached; distinct = number of distinct event-trace hashes (scheduling decisions + harness events + file-system mutations) among non-trivial runs, counted by the machinery."
	}
	cov := map[string]any{
		"evaluations":               t.Evals,
		"distinct_nontrivial":       distinct,
		"rule":                      rule,
		"samples":                   samples,
		"simulated_runs":            t.Runs,
		"nontrivial_runs":           t.Nontrivial,
		"discarded_runs":            t.Discarded,
		"runs_per_hour":             int64(rph),
		"sim_time_s":                float64(t.SimNs) / 1e9,
		"scheduling_steps":          t.Steps,
		"faults_fired":              faults,
		"probes":                    probes,
		"notes":                     notes,
		"schedule_policies":         t.Policies,
		"sim_outcomes":              t.SimOutcomes,
		"determinism_rechecks":      map[string]int64{"reexecuted": t.DetChecked, "mismatches": t.DetMismatch},
		"real_components":           cfg.Real,
		"stub_components":           cfg.Stub,
		"workers":                   workers,
		"search_budget_s":           budget.Seconds(),
		"known_findings_reproduced": knownSeen,
		"distinct_capped":           t.HashOverflow,
	}
	var unreached []string
	for k, v := range probes {
		if v == 0 {
			unreached = append(unreached, k)
		}
	}
	cov["unreached"] = unreached
	ev := map[string]any{
		"property_id": prop, "tier": tier, "seed": int64(seed & 0x7fffffffffffffff), "level": cfg.Level, "coverage": cov,
		"assumptions": append([]string{
			"crash model is process death: completed write(2) calls survive, un-fsynced data is not lost (power loss not modelled)",
			"preemption granularity is synchronisation, channel, timer, file-system and network operations; plain data races between yields are out of scope",
		}, cfg.Assume...),
		"wall_s": wall, "violations": nViol,
	}
	b, _ := json.MarshalIndent(ev, "", " ")
	os.MkdirAll(filepath.Join(verifDir, "evidence"), 0o755)
	if err := os.WriteFile(filepath.Join(verifDir, "evidence", prop+".json"), b, 0o644); err != nil {
		fatal("evidence: %v", err)
	}
}
