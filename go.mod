module verif

go 1.26

require golang.org/x/tools v0.50.0
