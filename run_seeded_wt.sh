#!/bin/bash
# usage: run_seeded_wt.sh <seeded-id> <prop> [<prop>...]   like run_seeded.sh but in a scratch worktree (leaves /repo alone);
# the evidence files the runs rewrite are restored from git afterwards.
id=$1; shift
wt=/tmp/rs-wt-$id
git -C /repo worktree add -q --detach $wt HEAD || exit 2
trap 'git -C /repo worktree remove --force '$wt' 2>/dev/null' EXIT
git -C $wt apply /verif/seeded/$id/patch.diff || { echo "patch does not apply"; exit 2; }
for p in "$@"; do
  out=$(VERIF_REPO=$wt /verif/bin/vcheck $p --tier quick --seed ${VERIF_SEED:-4242} 2>&1)
  code=$?
  echo "$out" | grep -E "^VIOLATION|^vcheck done|HARNESS-ERROR" | head -5
  echo "seeded=$id check=$p exit=$code"
  git -C /verif checkout -q evidence/$p.json
done
