#!/bin/bash
# usage: run_seeded.sh <seeded-id> <prop> [<prop>...]   applies /verif/seeded/<id>/patch.diff to /repo, runs quick checks, reverts.
id=$1; shift
cd /repo || exit 2
if [ -n "$(git status --porcelain)" ]; then echo "/repo not clean"; exit 2; fi
git apply /verif/seeded/$id/patch.diff || { echo "patch does not apply"; exit 2; }
trap 'git -C /repo checkout -- . ; git -C /repo clean -fdq -- internal cmd 2>/dev/null' EXIT
for p in "$@"; do
  out=$(/verif/bin/vcheck $p --tier quick --seed ${VERIF_SEED:-4242} 2>&1)
  code=$?
  echo "$out" | grep -E "^VIOLATION|^vcheck done|HARNESS-ERROR" | head -5
  echo "seeded=$id check=$p exit=$code"
done
