#!/usr/bin/env python3
"""Regenerates MANIFEST.json from the tables below (kept in sync with cmd/vcheck/props.go)."""
import json
ENV = "GOFLAGS=-mod=mod GOPROXY=off GOSUMDB=off GOTOOLCHAIN=local"
claimed = {
 "C03": ("exploration", "§5 C03", "seeded search over writer interleavings, flush timing (size/age/schema/explicit/shutdown), clock and knob configurations of the real ingest node; oracle: multiset of rows read back with pqarrow equals rows of acknowledged requests, right hour partition, values/nulls, sorted files"),
 "C04": ("exploration", "§5 C04", "seeded sequences of valid, unusual and byte-mutated msgpack/line-protocol bodies against the real handlers under seeded flush schedules; oracle: every request answered, no task panics (background flush panics are caught by the scheduler), rejected requests store nothing, accepted valid requests stored with right values"),
 "C05": ("exploration", "§5 C05", "seeded crash points (every scheduling point, every file-system operation, torn WAL writes) during ingest and during start-up recovery, up to three crashes; oracle: rows durable at the first crash (independent WAL parser + Parquet) are stored after restart with the database, measurement, columns, values and time of a crash-free twin execution"),
 "C07": ("exploration", "§5 C07", "seeded back-pressure (tiny flush queue, slow storage, tiny WAL buffer), storage outages, mid-stream graceful shutdown and restart, then faults stop and a bounded simulated settling time; oracle: every acknowledged row stored exactly once"),
 "C06": ("fault_enumeration", "§5 C06", "the real WAL Writer produces seeded logs under the simulator; every truncation offset and dense single-byte corruptions of every file are fed to the real Reader/Recovery; oracle: returned entries are an in-order subsequence of the appended entries (with database), complete entries before a truncation point are all returned, nothing altered or fabricated, no panic"),
 "C08": ("fault_enumeration", "§5 C08", "seeded sequences of LocalBackend operations with adversarial keys routed through the real validators; the complete single-fault space (each mutating fs op x crash-before/after, torn write, EIO, ENOSPC) of each sequence is executed; oracle: every fs operation stays inside the root, every non-staging file holds the complete content of some write"),
 "C13": ("exploration", "§5 C13", "seeded source trees backed up and restored by the real backup.Manager under seeded file-system faults, remote-backend style failures, a concurrent deleter and process death; oracle: restore of a completed backup is byte-identical or does not report success; skipped files are recorded in the manifest"),
}
na = {
 "C01": "pure function of the request bytes (line-protocol parsing/escaping): no schedule, clock, fault or interleaving to simulate",
 "C02": "typed vs generic msgpack decode equivalence is a function of one byte string",
 "C10": "delete predicate semantics over a dataset x predicate pair: pure input property",
 "C14": "which files an accepted SQL text reads is a per-string lexical/semantic property",
 "C15": "masking vs DuckDB's lexer: per SQL string",
 "C16": "query answer equivalence with DuckDB: per dataset x query",
 "C17": "rewrite value-equivalence: per expression x row",
 "C18": "pruning equivalence: per layout x query (NOW() is an input, not a timing property)",
 "C19": "response encoders: per result set",
 "C31": "import conversion: per uploaded file",
 "C32": "write routing by payload contents: per request",
}
checks = []
for pid, (level, ref, text) in sorted(claimed.items()):
    checks.append({
        "property_id": pid,
        "quick_cmd": f"/verif/bin/vcheck {pid} --tier quick",
        "thorough_cmd": f"/verif/bin/vcheck {pid} --tier thorough",
        "evidence_file": f"/verif/evidence/{pid}.json",
        "replay_cmd_template": f"/verif/bin/vcheck {pid} --replay {{path}}",
        "engine": "simrt+simgen",
        "level_claimed": {"category": level, "text": text, "design_ref": ref},
        "level_note": "trusted base: simgen rewrite rules and simrt scheduler/clock/fs shims (determinism self-checked by re-execution), arrow-go pqarrow reader, the oracle code in /verif/harness; sampling, not enumeration: a clean batch is evidence, not proof",
        "technique": "deterministic simulation with fault injection (seeded schedule/fault search over the real code, replayable)",
    })
m = {
 "version": 1,
 "setup_cmd": f"cd /verif && {ENV} go1.26.8 build -o bin/ ./cmd/vcheck ./cmd/simgen",
 "hooks": {
   "guard": "verif",
   "enable": "no hook is committed to /repo: every check regenerates the instrumentation from /repo's working tree with /verif/bin/simgen (go/ast rewrite into a scratch dir) and builds with `go build -overlay <scratch>/overlay.json -modfile <scratch>/go.mod -tags 'verif duckdb_arrow'`; the tag only gates overlay-added files",
   "baseline_off_cmd": f"cd /repo && {ENV} go1.26.8 test -vet=off -count=1 -timeout 25m ./...",
   "source_commits": [],
   "add_only": True,
 },
 "engines": [{"name": "simrt+simgen", "path": "/verif/simrt, /verif/simgen, /verif/harness", "serves_properties": sorted(claimed), "kind_free_text": "deterministic simulator: cooperative seeded scheduler over real goroutines, discrete-event clock, fs/network fault shims, injected into arc by AST rewriting through a build overlay"}],
 "checks": checks,
 "not_applicable": [{"property_id": k, "reason": v} for k, v in sorted(na.items())],
 "notes": "exit 2 + HARNESS-ERROR = harness trouble, never a verdict. known_findings.json lists genuine defects (known) and repaired ones (fixed).",
}
json.dump(m, open("/verif/MANIFEST.json", "w"), indent=1)
print("checks:", len(checks), "na:", len(na))
