#!/usr/bin/env python3
"""Regenerates MANIFEST.json from the tables below (kept in sync with cmd/vcheck/props.go)."""
import json
ENV = "GOFLAGS=-mod=mod GOPROXY=off GOSUMDB=off GOTOOLCHAIN=local"
claimed = {
 "C03": ("exploration", "§5 C03", "seeded search over writer interleavings, flush timing (size/age/schema/explicit/shutdown), clock and knob configurations of the real ingest node; oracle: multiset of rows read back with pqarrow equals rows of acknowledged requests, right hour partition, values/nulls, sorted files"),
 "C04": ("exploration", "§5 C04", "seeded sequences of valid, unusual and byte-mutated msgpack/line-protocol bodies against the real handlers under seeded flush schedules; oracle: every request answered, no task panics (background flush panics are caught by the scheduler), rejected requests store nothing, accepted valid requests stored with right values"),
 "C05": ("exploration", "§5 C05", "seeded crash points (every scheduling point, every file-system operation, torn WAL writes) during ingest and during start-up recovery, up to three crashes; oracle: rows durable at the first crash (independent WAL parser + Parquet) are stored after restart with the database, measurement, columns, values and time of a crash-free twin execution"),
 "C07": ("exploration", "§5 C07", "seeded back-pressure (tiny flush queue, slow storage, tiny WAL buffer), storage outages, mid-stream graceful shutdown and restart, then faults stop and a bounded simulated settling time; oracle: every acknowledged row stored exactly once"),
 "C06": ("fault_enumeration", "§5 C06", "the real WAL Writer produces seeded logs under the simulator; every truncation offset and dense single-byte corruptions of every file are fed to the real Reader/Recovery; oracle: returned entries are an in-order subsequence of the appended entries (with database), complete entries before a truncation point are all returned, nothing altered or fabricated, no panic"),
 "C08": ("fault_enumeration", "§5 C08", "seeded sequences of LocalBackend operations with adversarial keys routed through the real validators; the complete single-fault space (each mutating fs op x crash-before/after, torn write, EIO, ENOSPC) of each sequence is executed; oracle: every fs operation stays inside the root, every non-staging file holds the complete content of some write"),
 "C13": ("exploration", "§5 C13", "seeded source trees backed up and restored by the real backup.Manager under seeded file-system faults, remote-backend style failures, a concurrent deleter and process death; oracle: restore of a completed backup is byte-identical or does not report success; skipped files are recorded in the manifest"),
 "C09": ("fault_enumeration", "§5 C09", "partitions of small Parquet files compacted by the real Manager/Job/ManifestManager/DuckDB with the exec boundary run in-process; per case every mutating storage operation of the targeted job is a kill / pod-crash / storage-error point (capped), followed by fault-free recovery cycles; oracle: row multiset preserved (dedup collapses equal (tags,time) keys only with metadata), no input removed before its rows are in a complete output"),
 "C11": ("exploration", "§5 C11", "real RetentionHandler over seeded file layouts around the cutoff (sim clock), interleaved with compaction cycles, writes, dry runs, storage delete/list errors, crashes and clock jumps; oracle: no row at or after the cutoff removed, nothing outside the policy scope removed, no entirely old file left after a run that reported success, dry run changes nothing and reports what a real run deletes"),
 "C12": ("fault_enumeration", "§5 C12", "seeded tier-migration cases on the real Manager/Migrator/MetadataStore with two LocalBackends; per case every mutating storage/metadata step of the first cycle is a crash point (capped, strided), plus step failures (fs errors, SQLITE_BUSY), restarts and reconciliation; oracle: every file complete in some tier at every instant, and after a fault-free cycle the real query-layer read expression sees each row exactly once"),
 "C20": ("exploration", "§5 C20", "seeded histories of token/org/team/role/permission/membership changes and checks (single, batched, middleware) on the real AuthManager/RBACManager over SQLite, direct and cluster-apply mode, tiny caches, clock advances, raced mutations; oracle: each check equals a cache-free evaluation of the real policy code on the same SQLite state, cross-checked by an independent evaluator"),
 "C21": ("exploration", "§5 C21", "one mutator (revoke/delete/rotate/expire) against 1-4 verifier tasks on one token under seeded schedules with a scheduler-visible single DB connection; oracle: no verification invoked after the mutation returned (or after expiry) succeeds with the old value"),
 "C22": ("exploration", "§5 C22", "seeded committed logs of all 29 command types (valid, invalid, duplicate, conflicting, batches) applied to the real ClusterFSM; snapshot/restore at every prefix, suffix replay, lagging/crashing replicas, seeded map order; oracle: equal state at equal index, restore(snapshot(s)) = s, indexes agree with primaries, batches all-or-nothing"),
 "C23": ("exploration", "§5 C23", "same command logs; every reachable and every restored state is judged: at most one primary, the named primary exists and is marked, re-AddNode keeps the recorded role, RBAC records have existing parents"),
 "C24": ("exploration", "§5 C24", "1-16 producer tasks appending through the real wal.Writer hook -> Sender -> wire -> Receiver with the real handshake; passive wire (schedules only) and adversarial wire (frame drop/dup/reorder/flip/truncate/replay/splice/inject, resets, half-open, stalls) as separate configurations; oracle: applied entries are exactly the queued ones, once, in order; passive: no disconnects or unreported losses"),
 "C25": ("exploration", "§5 C25", "real Puller + FetchClient against a scripted peer over an in-memory connection with per-attempt faults (dial failure, error acks, truncation/corruption at any byte, lying acks), leftover .part files and replica crashes; oracle: final path absent or byte-identical at every fs mutation, counters/catch-up gate never claim a missing file, convergence after faults stop"),
 "C26": ("exploration", "§5 C26", "signed requests of all five nonce-protected message types delivered and re-delivered to the real handlers at seeded clock positions around the tolerance window and the nonce retention (read from the construction sites), concurrent duplicates, clock steps; oracle: at most one accept per (sender, nonce), reject outside the window"),
 "C27": ("exploration", "§5 C27", "real spoke Agent/Ledger and hub Receiver/Reconciler/HubIndex joined by a fault-injecting transport (lost acks, lingering requests, short/corrupt bodies, back-pressure, collisions), spoke crashes, hub fs faults, hub/spoke compaction and removals; oracle: hub never exposes wrong bytes or stores a file twice, synced only when the hub holds identical content, documented ledger transitions, terminal states after faults stop"),
 "C28": ("exploration", "§5 C28", "arrival sequences aligned to slot/minute/hour/UTC-day boundaries, concurrent requests, policy changes and wall-clock steps through the real query route's governance block; oracle over admit intervals: no window of the configured length holds more admits than the limit, quotas per clock hour/UTC day, rate-limited requests consume no quota, limit changes apply to the next request"),
 "C29": ("exploration", "§5 C29", "real ContinuousQueryHandler + CQScheduler + DuckDB + ArrowBuffer driven through the HTTP routes under the sim clock with manual/scheduled/concurrent executions, failing SQL, storage outages, restarts, crashes and clock steps; oracle over the handler's own execution history and the destination rows: contiguous non-overlapping windows, failures do not advance, rows labelled with the window start"),
 "C30": ("exploration", "§5 C30", "clusters of 1-4 nodes with real Routers/Registries/handlers, every role/state/health/belief combination, client-supplied forwarding headers, delayed/refused/lost forwards and health flapping; oracle: hop count <= 1, only capable nodes process locally, capable receivers serve locally"),
}
na = {
 "C01": "pure function of the request bytes (line-protocol parsing/escaping): no schedule, clock, fault or interleaving to simulate",
 "C02": "typed vs generic msgpack decode equivalence is a function of one byte string",
 "C10": "delete predicate semantics over a dataset x predicate pair: pure input property",
 "C14": "which files an accepted SQL text reads is a per-string lexical/semantic property",
 "C15": "masking vs DuckDB's lexer: per SQL string",
 "C16": "query answer equivalence with DuckDB: per dataset x query",
 "C17": "rewrite value-equivalence: per expression x row",
 "C18": "pruning equivalence: per layout x query (NOW() is an input, not a timing property)",
 "C19": "response encoders: per result set",
 "C31": "import conversion: per uploaded file",
 "C32": "write routing by payload contents: per request",
}
checks = []
for pid, (level, ref, text) in sorted(claimed.items()):
    checks.append({
        "property_id": pid,
        "quick_cmd": f"/verif/bin/vcheck {pid} --tier quick",
        "thorough_cmd": f"/verif/bin/vcheck {pid} --tier thorough",
        "evidence_file": f"/verif/evidence/{pid}.json",
        "replay_cmd_template": f"/verif/bin/vcheck {pid} --replay {{path}}",
        "engine": "simrt+simgen",
        "level_claimed": {"category": level, "text": text, "design_ref": ref},
        "level_note": "trusted base: simgen rewrite rules and simrt scheduler/clock/fs shims (determinism self-checked by re-execution), arrow-go pqarrow reader, the oracle code in /verif/harness; sampling, not enumeration: a clean batch is evidence, not proof",
        "technique": "deterministic simulation with fault injection (seeded schedule/fault search over the real code, replayable)",
    })
m = {
 "version": 1,
 "setup_cmd": f"cd /verif && {ENV} go1.26.8 build -o bin/ ./cmd/vcheck ./cmd/simgen",
 "hooks": {
   "guard": "verif",
   "enable": "no hook is committed to /repo: every check regenerates the instrumentation from /repo's working tree with /verif/bin/simgen (go/ast rewrite into a scratch dir) and builds with `go build -overlay <scratch>/overlay.json -modfile <scratch>/go.mod -tags 'verif duckdb_arrow'`; the tag only gates overlay-added files",
   "baseline_off_cmd": f"cd /repo && {ENV} go1.26.8 test -vet=off -count=1 -timeout 25m ./...",
   "source_commits": [],
   "add_only": True,
 },
 "engines": [{"name": "simrt+simgen", "path": "/verif/simrt, /verif/simgen, /verif/harness", "serves_properties": sorted(claimed), "kind_free_text": "deterministic simulator: cooperative seeded scheduler over real goroutines, discrete-event clock, fs/network fault shims, injected into arc by AST rewriting through a build overlay"}],
 "checks": checks,
 "not_applicable": [{"property_id": k, "reason": v} for k, v in sorted(na.items())],
 "notes": "exit 2 + HARNESS-ERROR = harness trouble, never a verdict. known_findings.json lists genuine defects (known) and repaired ones (fixed).",
}
json.dump(m, open("/verif/MANIFEST.json", "w"), indent=1)
print("checks:", len(checks), "na:", len(na))
