#!/usr/bin/env python3
"""Rewrites DESIGN.md §9.3 (findings/repairs) and §9.4 (seeded changes) from known_findings.json and seeded/*/meta.json."""
import json,collections,subprocess,glob,os,re
V='/verif'
kf=json.load(open(V+'/known_findings.json'))
subj={}
for l in subprocess.check_output(['git','-C','/repo','log','--format=%h %s']).decode().splitlines():
    h,s=l.split(' ',1); subj[h]=s
byc=collections.OrderedDict()
for k in kf:
    if k['status']=='fixed':
        byc.setdefault((k['property'],k['commit']),[]).append(k['rule'])
o=[]
o.append("### 9.3 Findings on the unchanged tree, and repairs\n")
o.append("Every violation a check reported on the unchanged tree was triaged by reading\nthe arc code and replaying the minimised file. Genuine defects that had a\nsmall, safe repair were fixed in /repo, one `fix:` commit per root cause (the\nexisting test suite, unedited, passes with all of them); the rest are listed\nas `known` in `/verif/known_findings.json`. A `fixed` entry suppresses\nnothing: if the rule fires again it is reported as a violation. False alarms\nmet on the way (oracle or harness mistakes) were corrected in the harness and\nare never listed; the notable ones are described in §9.5.\n")
o.append("**Repaired: %d commits covering %d rule ids.**\n" % (len({c for (_,c) in byc}), sum(len(v) for v in byc.values())))
o.append("| property | commit | repair | rule ids it removed |\n|---|---|---|---|")
for (p,c),rules in sorted(byc.items()):
    rs=sorted(rules)
    short=', '.join('`'+r.split('.',1)[1]+'`' for r in rs[:2]) + (' … (+%d)'%(len(rs)-2) if len(rs)>2 else '')
    o.append("| %s | %s | %s | %s |"%(p,c,subj.get(c,'').replace('fix: ','').replace('|','/'),short))
known=[k for k in kf if k['status']=='known']
o.append("\n**Known findings: %d rule ids (genuine; not repaired because the repair needs a redesign or the behaviour is a deliberate trade-off stated in the code).**\n"%len(known))
o.append("| rule id | what fails |\n|---|---|")
for k in sorted(known,key=lambda k:k['rule']):
    o.append("| `%s` | %s |"%(k['rule'],k['what'].replace('|','/')))
o.append("\n### 9.4 Seeded changes (independent sub-agents, property text only) and what catches them\n")
o.append("Each change compiles, passes the existing tests of the packages it touches, and\ncomes with a demonstration test that fails with it and passes without it\n(`/verif/seeded/<id>/`: patch.diff, demo test, notes.md, meta.json). 'missed first'\nmeans the check had to be strengthened (workload or fault mix, never the oracle's\nstrictness) before it caught the change.\n")
o.append("| id | breaks | needs | caught by |\n|---|---|---|---|")
for d in sorted(glob.glob(V+'/seeded/*/meta.json')):
    m=json.load(open(d))
    o.append("| %s | %s | %s | %s |"%(m['id'],m['breaks'],m['needs'].replace('|','/'),'; '.join(m['caught_by']).replace('|','/')))
txt='\n'.join(o)+'\n'
p=V+'/DESIGN.md'
s=open(p).read()
b,e='<!-- BEGIN GENERATED 9.3-9.4 -->','<!-- END GENERATED 9.3-9.4 -->'
if b in s:
    s=s[:s.index(b)]+b+'\n'+txt+e+s[s.index(e)+len(e):]
else:
    s=s.rstrip('\n')+'\n\n'+b+'\n'+txt+e+'\n'
open(p,'w').write(s)
print("ok",len(byc),len(known))
