#!/bin/bash
# usage: sweep.sh <seed> <budget> <workers> [props...]  — runs quick-tier checks with a given seed/budget, prints only verdict lines
seed=$1; budget=$2; workers=$3; shift 3
props="$@"; [ -z "$props" ] && props="C03 C04 C05 C06 C07 C08 C09 C11 C12 C13 C20 C21 C22 C23 C24 C25 C26 C27 C28 C29 C30"
for p in $props; do
  /verif/bin/vcheck $p --tier ${TIER:-quick} --seed $seed --budget $budget --workers $workers 2>&1 | grep -E "^VIOLATION|^vcheck done|HARNESS-ERROR" | cut -c1-260
done
