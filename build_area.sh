#!/bin/bash
# usage: build_area.sh <area> <scratch>  -> builds <scratch>/<area>.bin from /repo's working tree
set -e
export GOFLAGS=-mod=mod GOPROXY=off GOSUMDB=off GOTOOLCHAIN=local PATH=/opt/veriftools/go1.26.8/bin:$PATH
area=$1; out=$2
V=/verif
R=${VERIF_REPO:-/repo}
mkdir -p $out
$V/bin/simgen -repo $R -profile $V/profiles/$area.json -out $out >/dev/null
cp $R/go.mod $out/go.mod; cp $R/go.sum $out/go.sum
target=$(python3 -c "import json;print(json.load(open('$V/profiles/$area.json'))['target'])")
tags=$(python3 -c "import json;print(json.load(open('$V/profiles/$area.json')).get('tags','verif'))")
cd $R && go1.26.8 build -modfile=$out/go.mod -overlay $out/overlay.json -tags "$tags" -o $out/$area.bin ./$target
