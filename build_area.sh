#!/bin/bash
# usage: build_area.sh <area> <scratch>  -> builds <scratch>/<area>.bin from /repo's working tree
set -e
export GOFLAGS=-mod=mod GOPROXY=off GOSUMDB=off GOTOOLCHAIN=local PATH=/opt/veriftools/go1.26.8/bin:$PATH
area=$1; out=$2
V=/verif
mkdir -p $out
$V/bin/simgen -profile $V/profiles/$area.json -out $out >/dev/null
cp /repo/go.mod $out/go.mod; cp /repo/go.sum $out/go.sum
target=$(python3 -c "import json;print(json.load(open('$V/profiles/$area.json'))['target'])")
tags=$(python3 -c "import json;print(json.load(open('$V/profiles/$area.json')).get('tags','verif'))")
cd /repo && go1.26.8 build -modfile=$out/go.mod -overlay $out/overlay.json -tags "$tags" -o $out/$area.bin ./$target
