#!/bin/bash
# usage: confirm_seeded.sh <worktree> <pkg-pattern-for-demo> <demo-run-regex> [extra test pkgs...]
# Confirms in the scratch worktree: demo FAILS with the patch, PASSES without; existing tests of pkgs pass with the patch.
export GOFLAGS=-mod=mod GOPROXY=off GOSUMDB=off GOTOOLCHAIN=local
wt=$1; pkg=$2; re=$3; shift 3
cd $wt || exit 2
git apply --check -R _seeded/patch.diff 2>/dev/null || { echo "patch not applied in worktree?"; }
echo "== demo WITH patch (expect FAIL)"
go1.26.8 test -count=1 -run "$re" $pkg 2>&1 | tail -3
git apply -R _seeded/patch.diff || exit 2
echo "== demo WITHOUT patch (expect ok)"
go1.26.8 test -count=1 -run "$re" $pkg 2>&1 | tail -3
git apply _seeded/patch.diff || exit 2
echo "== existing tests WITH patch (demo excluded)"
demo=$(ls $(echo $pkg | sed 's#^\./##')/zz_seeded*_test.go 2>/dev/null | head -1)
[ -n "$demo" ] && mv $demo /tmp/$(basename $wt).demo.hold
go1.26.8 test -count=1 $pkg "$@" 2>&1 | tail -6
[ -n "$demo" ] && mv /tmp/$(basename $wt).demo.hold $demo
