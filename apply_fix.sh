#!/bin/bash
# usage: apply_fix.sh <worktree-area> <fix-name> <test pkgs...>  — applies a reviewed fix patch to /repo, tests, commits with its message
export GOFLAGS=-mod=mod GOPROXY=off GOSUMDB=off GOTOOLCHAIN=local
area=$1; name=$2; shift 2
d=/tmp/fix/$area-wt/_fixes
cd /repo || exit 2
[ -n "$(git status --porcelain)" ] && { echo "/repo dirty"; exit 2; }
git apply --3way $d/$name.diff 2>/dev/null || git apply $d/$name.diff || { echo "APPLY FAILED $name"; git checkout -- .; exit 1; }
go1.26.8 build ./... || { echo "BUILD FAILED $name"; git checkout -- .; exit 1; }
if ! go1.26.8 test -count=1 "$@" 2>&1 | tail -15 | tee /tmp/fix/$area-$name.test | grep -q "^FAIL"; then
  git add -A; git commit -q -F $d/$name.msg; echo "COMMITTED $name $(git log -1 --format=%h)"
else
  echo "TESTS FAILED $name"; cat /tmp/fix/$area-$name.test; git checkout -- .; git clean -fdq internal cmd; exit 1
fi
