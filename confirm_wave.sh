#!/bin/bash
# usage: confirm_wave.sh <seeded-id>...   confirms each /verif/seeded/<id> in one scratch worktree of /repo HEAD:
# demo passes without the patch, fails with it; the patched packages' and the demo package's existing tests pass with it.
export GOFLAGS=-mod=mod GOPROXY=off GOSUMDB=off GOTOOLCHAIN=local
wt=/tmp/cf-wt
[ -d $wt ] || git -C /repo worktree add -q --detach $wt HEAD || exit 2
cd $wt || exit 2
for id in "$@"; do
  s=/verif/seeded/$id
  git checkout -q -- . ; git clean -fdq
  demo=$(grep -o 'internal/[A-Za-z0-9_/]*/zz_seeded_demo_test.go\|cmd/[A-Za-z0-9_/]*/zz_seeded_demo_test.go' $s/notes.md | head -1)
  [ -z "$demo" ] && { echo "$id: cannot find demo path"; continue; }
  dpkg=./$(dirname $demo)/
  cp $s/zz_seeded_demo_test.go $demo
  without=$(go1.26.8 test -count=1 -run 'Seeded' $dpkg 2>&1 | tail -1)
  git apply $s/patch.diff || { echo "$id: patch does not apply"; continue; }
  with=$(go1.26.8 test -count=1 -run 'Seeded' $dpkg 2>&1 | tail -1)
  pkgs=$( (grep '^+++ b/' $s/patch.diff | sed 's|+++ b/||' | xargs -n1 dirname | sed 's|^|./|;s|$|/|'; echo $dpkg) | sort -u | tr '\n' ' ')
  rest=$(go1.26.8 test -count=1 -skip 'Seeded' $pkgs 2>&1 | grep -v "^ok\|no test files" | head -3 | tr '\n' ';')
  echo "$id: WITHOUT[$without] WITH[$with] EXISTING[${rest:-all ok}] pkgs=$pkgs"
done
git checkout -q -- . ; git clean -fdq
