#!/bin/bash
# usage: intake_seeded.sh <round> <prop> <scratch-worktree>   copies <worktree>/_seeded into /verif/seeded/s<round>-<prop>/,
# confirms it (confirm_wave.sh) and runs the property's quick check against it in a scratch worktree (run_seeded_wt.sh).
r=$1; p=$2; wt=$3; id=s$r-$p; d=/verif/seeded/$id
[ -f $wt/_seeded/patch.diff ] || { echo "$id: no patch.diff"; exit 2; }
mkdir -p $d; cp $wt/_seeded/patch.diff $wt/_seeded/notes.md $d/ 2>/dev/null
demo=$(ls $wt/_seeded/*_test.go 2>/dev/null | head -1); [ -n "$demo" ] && cp $demo $d/zz_seeded_demo_test.go
/verif/confirm_wave.sh $id 2>&1 | tail -2
shift 3
/verif/run_seeded_wt.sh $id $p "$@" 2>&1 | cut -c1-300
